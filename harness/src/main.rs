//! Harness: interprets the case language (same as ocaml/driver.ml) against the
//! real muxide crate and prints results in the same textual format.
//! Every library call runs under catch_unwind; a panic prints `r panic`.

use std::collections::VecDeque;
use std::io::{self, BufRead, Write};
use std::panic::{catch_unwind, AssertUnwindSafe};
use std::sync::{Arc, Mutex};

use muxide::api::{AacProfile, AudioCodec, Metadata, Muxer, MuxerBuilder, MuxerError, VideoCodec};
use muxide::codec::av1::{extract_av1_config, is_av1_keyframe, parse_obu_header, read_leb128, ObuInfo, ObuIter};
use muxide::codec::common::{find_start_code, AnnexBNalIter};
use muxide::codec::h264::{annexb_to_avcc, extract_avc_config, is_h264_keyframe};
use muxide::codec::h265::{extract_hevc_config, hevc_annexb_to_hvcc, is_hevc_keyframe};
use muxide::codec::opus::{
    is_valid_opus_packet, opus_frame_count, opus_frame_duration_from_toc, opus_packet_samples,
};
use muxide::codec::vp9::{extract_vp9_config, is_valid_vp9_frame, is_vp9_keyframe, Vp9Config, Vp9Error};
use muxide::fragmented::{FragmentConfig, FragmentedError, FragmentedMuxer};
use muxide::validation::{
    validate_audio_config, validate_audio_frame, validate_muxing_config, validate_video_config, validate_video_frame,
    AudioValidationConfig, ValidationResult, VideoValidationConfig,
};

// ---------- helpers ----------
fn hexval(c: u8) -> u8 {
    match c {
        b'0'..=b'9' => c - b'0',
        b'a'..=b'f' => c - b'a' + 10,
        b'A'..=b'F' => c - b'A' + 10,
        _ => panic!("bad hex"),
    }
}
fn bytes_of_hex(s: &str) -> Vec<u8> {
    if s == "-" {
        return Vec::new();
    }
    let b = s.as_bytes();
    (0..b.len() / 2).map(|i| hexval(b[2 * i]) * 16 + hexval(b[2 * i + 1])).collect()
}
fn hex_of_bytes(b: &[u8]) -> String {
    if b.is_empty() {
        return "-".to_string();
    }
    let mut s = String::with_capacity(b.len() * 2);
    for x in b {
        s.push_str(&format!("{:02x}", x));
    }
    s
}
fn num(s: &str) -> u64 {
    u64::from_str_radix(s, 16).expect("hex number")
}
fn opt_hex(s: &str) -> Option<Vec<u8>> {
    if s == "~" { None } else { Some(bytes_of_hex(s)) }
}
fn s01(b: bool) -> &'static str {
    if b { "1" } else { "0" }
}
fn f64_of(s: &str) -> f64 {
    f64::from_bits(num(s))
}
fn f64_hex(x: f64) -> String {
    if x.is_nan() { "7ff8000000000000".to_string() } else { format!("{:x}", x.to_bits()) }
}

fn vcodec(s: &str) -> VideoCodec {
    match s {
        "h264" => VideoCodec::H264,
        "h265" => VideoCodec::H265,
        "av1" => VideoCodec::Av1,
        "vp9" => VideoCodec::Vp9,
        _ => panic!("vcodec"),
    }
}
fn vcodec_s(c: VideoCodec) -> &'static str {
    match c {
        VideoCodec::H264 => "h264",
        VideoCodec::H265 => "h265",
        VideoCodec::Av1 => "av1",
        VideoCodec::Vp9 => "vp9",
    }
}
fn acodec_s(c: AudioCodec) -> &'static str {
    match c {
        AudioCodec::Aac(AacProfile::Lc) => "aac-lc",
        AudioCodec::Aac(AacProfile::Main) => "aac-main",
        AudioCodec::Aac(AacProfile::Ssr) => "aac-ssr",
        AudioCodec::Aac(AacProfile::Ltp) => "aac-ltp",
        AudioCodec::Aac(AacProfile::He) => "aac-he",
        AudioCodec::Aac(AacProfile::Hev2) => "aac-hev2",
        AudioCodec::Opus => "opus",
        AudioCodec::None => "none",
    }
}
fn acodec(s: &str) -> AudioCodec {
    match s {
        "aac-lc" => AudioCodec::Aac(AacProfile::Lc),
        "aac-main" => AudioCodec::Aac(AacProfile::Main),
        "aac-ssr" => AudioCodec::Aac(AacProfile::Ssr),
        "aac-ltp" => AudioCodec::Aac(AacProfile::Ltp),
        "aac-he" => AudioCodec::Aac(AacProfile::He),
        "aac-hev2" => AudioCodec::Aac(AacProfile::Hev2),
        "opus" => AudioCodec::Opus,
        "none" => AudioCodec::None,
        _ => panic!("acodec"),
    }
}

const INJECT: [io::ErrorKind; 9] = [
    io::ErrorKind::NotConnected,
    io::ErrorKind::BrokenPipe,
    io::ErrorKind::PermissionDenied,
    io::ErrorKind::WouldBlock,
    io::ErrorKind::TimedOut,
    io::ErrorKind::UnexpectedEof,
    io::ErrorKind::ConnectionReset,
    io::ErrorKind::NotFound,
    io::ErrorKind::AddrInUse,
];

fn io_name(k: io::ErrorKind) -> String {
    match k {
        io::ErrorKind::InvalidData => "InvalidData".into(),
        io::ErrorKind::InvalidInput => "InvalidInput".into(),
        io::ErrorKind::Other => "Other".into(),
        io::ErrorKind::WriteZero => "WriteZero".into(),
        other => match INJECT.iter().position(|x| *x == other) {
            Some(i) => format!("Injected{:x}", i),
            None => format!("Unknown:{:?}", other),
        },
    }
}

fn merr_str(e: &MuxerError) -> String {
    use MuxerError::*;
    match e {
        MissingVideoConfig => "MissingVideoConfig".into(),
        Io(err) => format!("Io {}", io_name(err.kind())),
        AlreadyFinished => "AlreadyFinished".into(),
        NegativeVideoPts { frame_index, .. } => format!("NegativeVideoPts {:x}", frame_index),
        NegativeVideoDts { frame_index, .. } => format!("NegativeVideoDts {:x}", frame_index),
        InvalidVideoPts { frame_index, .. } => format!("InvalidVideoPts {:x}", frame_index),
        InvalidVideoDts { frame_index, .. } => format!("InvalidVideoDts {:x}", frame_index),
        NegativeAudioPts { frame_index, .. } => format!("NegativeAudioPts {:x}", frame_index),
        InvalidAudioPts { frame_index, .. } => format!("InvalidAudioPts {:x}", frame_index),
        AudioNotConfigured => "AudioNotConfigured".into(),
        EmptyAudioFrame { frame_index } => format!("EmptyAudioFrame {:x}", frame_index),
        EmptyVideoFrame { frame_index } => format!("EmptyVideoFrame {:x}", frame_index),
        NonIncreasingVideoPts { frame_index, .. } => format!("NonIncreasingVideoPts {:x}", frame_index),
        DecreasingAudioPts { frame_index, .. } => format!("DecreasingAudioPts {:x}", frame_index),
        AudioBeforeFirstVideo { .. } => "AudioBeforeFirstVideo".into(),
        FirstVideoFrameMustBeKeyframe => "FirstVideoFrameMustBeKeyframe".into(),
        FirstVideoFrameMissingSpsPps => "FirstVideoFrameMissingSpsPps".into(),
        FirstAv1FrameMissingSequenceHeader => "FirstAv1FrameMissingSequenceHeader".into(),
        FirstVp9FrameMissingSequenceHeader => "FirstVp9FrameMissingSequenceHeader".into(),
        InvalidAdts { frame_index } => format!("InvalidAdts {:x}", frame_index),
        InvalidAdtsDetailed { frame_index, error } => {
            // exercise the (unmodelled) text paths as well
            let _ = format!("{} {:#}", error, error);
            let _ = error.to_json();
            let _ = error.to_json_compact();
            let _ = error.is_critical();
            let _ = error.all_errors().len();
            let _ = format!("{:?}", error);
            format!("InvalidAdtsDetailed {:x} {:?}", frame_index, error.kind)
        }
        InvalidOpusPacket { frame_index } => format!("InvalidOpusPacket {:x}", frame_index),
        NonIncreasingDts { frame_index, .. } => format!("NonIncreasingDts {:x}", frame_index),
    }
}

// ---------- scripted sink ----------
#[derive(Clone, Debug)]
enum Ev {
    Acc(u64),
    Intr,
    Fail(usize),
}

#[derive(Clone)]
struct ScriptSink {
    data: Arc<Mutex<Vec<u8>>>,
    script: Arc<Mutex<VecDeque<Ev>>>,
    writes: Arc<Mutex<u64>>,
}

impl Write for ScriptSink {
    fn write(&mut self, buf: &[u8]) -> io::Result<usize> {
        *self.writes.lock().unwrap() += 1;
        let ev = self.script.lock().unwrap().pop_front();
        match ev {
            None => {
                self.data.lock().unwrap().extend_from_slice(buf);
                Ok(buf.len())
            }
            Some(Ev::Acc(n)) => {
                let k = std::cmp::min(n, buf.len() as u64) as usize;
                self.data.lock().unwrap().extend_from_slice(&buf[..k]);
                Ok(k)
            }
            Some(Ev::Intr) => Err(io::Error::new(io::ErrorKind::Interrupted, "interrupted")),
            Some(Ev::Fail(k)) => Err(io::Error::new(INJECT[k % INJECT.len()], "injected")),
        }
    }
    fn flush(&mut self) -> io::Result<()> {
        Ok(())
    }
}

fn parse_ev(s: &str) -> Ev {
    match s.as_bytes()[0] {
        b'a' => Ev::Acc(num(&s[1..])),
        b'i' => Ev::Intr,
        b'f' => Ev::Fail(num(&s[1..]) as usize),
        _ => panic!("bad ev"),
    }
}

// ---------- pure function cases ----------
fn opt<T>(o: Option<T>, f: impl Fn(T) -> String) -> String {
    match o {
        None => "none".into(),
        Some(x) => f(x),
    }
}
fn obu_str(i: &ObuInfo) -> String {
    format!(
        "{:x} {} {} {:x} {:x}",
        i.obu_type,
        s01(i.has_extension),
        i.header_size,
        i.payload_size,
        i.total_size
    )
}
fn vp9cfg_str(c: &Vp9Config) -> String {
    format!(
        "{:x} {:x} {:x} {:x} {:x} {:x} {:x} {:x} {:x}",
        c.width,
        c.height,
        c.profile,
        c.bit_depth,
        c.color_space,
        c.transfer_function,
        c.matrix_coefficients,
        c.level,
        c.full_range_flag
    )
}

// validation texts -> the codes of Model/Validation.v (every text the module can produce is listed;
// an unlisted text prints code 99 and shows up as a correspondence mismatch)
fn vmsg_code(t: &str) -> u32 {
    const M: [(&str, u32); 11] = [
        ("✓ Video codec ", 1),
        ("✓ Video dimensions ", 2),
        ("✓ Video framerate ", 3),
        ("✓ Audio codec ", 4),
        ("✓ No audio configured", 5),
        ("✓ Audio sample rate ", 6),
        ("✓ Audio channels ", 7),
        ("⚠ Frame not marked as keyframe but ", 8),
        ("✓ Frame keyframe flag matches ", 9),
        ("✓ AAC frame has valid ADTS header", 10),
        ("✓ Opus packet has valid structure", 11),
    ];
    M.iter().find(|(p, _)| t.starts_with(p)).map(|x| x.1).unwrap_or(99)
}
fn verr_code(t: &str) -> u32 {
    const E: [(&str, &str, u32); 19] = [
        ("Video width and height must be positive", "", 1),
        ("Video dimensions ", "exceed maximum supported size", 2),
        ("Video dimensions ", "below minimum supported size", 3),
        ("Video framerate must be positive", "", 4),
        ("Video framerate ", "exceeds maximum supported rate", 5),
        ("Audio sample rate must be positive", "", 6),
        ("Audio sample rate ", "exceeds maximum supported rate", 7),
        ("Audio channels must be positive", "", 8),
        ("Audio channels ", "exceeds maximum supported count", 9),
        ("Video frame data cannot be empty", "", 10),
        ("Frame marked as keyframe but ", "", 11),
        ("Audio frame data cannot be empty", "", 12),
        ("AAC frame too short for ADTS header", "", 13),
        ("Invalid AAC ADTS syncword", "", 14),
        ("Invalid Opus packet structure", "", 15),
        ("Cannot validate audio frame for None codec", "", 16),
        ("Video codec specified but missing", "", 17),
        ("Audio codec specified but missing", "", 18),
        ("At least one of video or audio must be configured", "", 19),
    ];
    E.iter().find(|(p, q, _)| t.starts_with(p) && t.contains(q)).map(|x| x.2).unwrap_or(99)
}
fn vres(r: &ValidationResult) -> String {
    let m: Vec<String> = r.messages.iter().map(|t| vmsg_code(t).to_string()).collect();
    let e: Vec<String> = r.errors.iter().map(|t| verr_code(t).to_string()).collect();
    format!("{} m{} e{}", s01(r.is_valid), m.join(","), e.join(","))
}

fn run_fn(name: &str, args: &[&str]) -> String {
    let d = || bytes_of_hex(args[0]);
    match name {
        "find_start_code" => opt(find_start_code(&d(), args[1].parse::<usize>().unwrap()), |(p, l)| {
            format!("{} {}", p, l)
        }),
        "nal_iter" => {
            let data = d();
            let v: Vec<String> = AnnexBNalIter::new(&data).map(hex_of_bytes).collect();
            format!("{}.", v.join(","))
        }
        "annexb_to_avcc" => hex_of_bytes(&annexb_to_avcc(&d())),
        "hevc_annexb_to_hvcc" => hex_of_bytes(&hevc_annexb_to_hvcc(&d())),
        "extract_avc_config" => opt(extract_avc_config(&d()), |c| {
            format!("{} {}", hex_of_bytes(&c.sps), hex_of_bytes(&c.pps))
        }),
        "extract_hevc_config" => opt(extract_hevc_config(&d()), |c| {
            format!(
                "{} {} {} {:x} {} {:x} {:x}",
                hex_of_bytes(&c.vps),
                hex_of_bytes(&c.sps),
                hex_of_bytes(&c.pps),
                c.general_profile_space(),
                s01(c.general_tier_flag()),
                c.general_profile_idc(),
                c.general_level_idc()
            )
        }),
        "is_h264_keyframe" => s01(is_h264_keyframe(&d())).into(),
        "is_hevc_keyframe" => s01(is_hevc_keyframe(&d())).into(),
        "is_valid_opus_packet" => s01(is_valid_opus_packet(&d())).into(),
        "opus_packet_samples" => opt(opus_packet_samples(&d()), |s| format!("{:x}", s)),
        "opus_frame_count" => opt(opus_frame_count(&d()), |(c, v)| format!("{:x} {}", c, s01(v))),
        "opus_frame_duration_from_toc" => opt(opus_frame_duration_from_toc(num(args[0]) as u8), |x| {
            let _ = x.seconds();
            format!("{:x}", x.samples())
        }),
        "read_leb128" => opt(read_leb128(&d()), |(v, k)| format!("{:x} {}", v, k)),
        "parse_obu_header" => opt(parse_obu_header(&d()), |i| obu_str(&i)),
        "obu_iter" => {
            let data = d();
            let v: Vec<String> = ObuIter::new(&data)
                .map(|(i, b)| format!("{} {}", obu_str(&i), hex_of_bytes(b)))
                .collect();
            format!("{}.", v.join(","))
        }
        "extract_av1_config" => opt(extract_av1_config(&d()), |c| {
            format!(
                "{} {:x} {:x} {:x} {} {} {} {} {} {:x}",
                hex_of_bytes(&c.sequence_header),
                c.seq_profile,
                c.seq_level_idx,
                c.seq_tier,
                s01(c.high_bitdepth),
                s01(c.twelve_bit),
                s01(c.monochrome),
                s01(c.chroma_subsampling_x),
                s01(c.chroma_subsampling_y),
                c.chroma_sample_position
            )
        }),
        "is_av1_keyframe" => s01(is_av1_keyframe(&d())).into(),
        "extract_vp9_config" => opt(extract_vp9_config(&d()), |c| vp9cfg_str(&c)),
        "is_vp9_keyframe" => match is_vp9_keyframe(&d()) {
            Ok(b) => format!("ok {}", s01(b)),
            Err(Vp9Error::FrameTooShort) => "err FrameTooShort".into(),
            Err(Vp9Error::InvalidFrameMarker) => "err InvalidFrameMarker".into(),
            Err(e) => format!("err other {}", e),
        },
        "is_valid_vp9_frame" => s01(is_valid_vp9_frame(&d())).into(),
        // the crate's assertion log (thread-local set of invariant messages): the three non-asserting entry
        // points; `contract_test` with an empty requirement list must not panic whatever was logged before
        "frag_default_init" => {
            let mut m = FragmentedMuxer::new(FragmentConfig::default());
            hex_of_bytes(&m.init_segment())
        }
        "opus_config" => {
            use muxide::codec::opus::OpusConfig;
            let mut c = match args[0] {
                "mono" => OpusConfig::mono(),
                "stereo" => OpusConfig::stereo(),
                _ => OpusConfig::default(),
            };
            if args[1] != "~" {
                c = c.with_pre_skip(num(args[1]) as u16);
            }
            if args[2] != "~" {
                c = c.with_channels(num(args[2]) as u8);
            }
            assert!(c.stream_count.is_none() && c.coupled_count.is_none() && c.channel_mapping.is_none());
            format!(
                "{:x} {:x} {:x} {:x} {:x} {:x}",
                c.version, c.output_channel_count, c.pre_skip, c.input_sample_rate, c.output_gain, c.channel_mapping_family
            )
        }
        "invariant_log" => {
            let n = muxide::invariant_ppt::get_logged_invariants().len();
            muxide::invariant_ppt::contract_test("verif", &[]);
            muxide::invariant_ppt::clear_invariant_log();
            let m = muxide::invariant_ppt::get_logged_invariants().len();
            format!("ok {}", if m == 0 && n < 1_000_000 { 0 } else { 1 })
        }
        "parse_video_codec" => match String::from_utf8(d()) {
            Ok(t) => opt(t.parse::<VideoCodec>().ok(), |c| vcodec_s(c).to_string()),
            Err(_) => "not-utf8".into(),
        },
        "parse_audio_codec" => match String::from_utf8(d()) {
            Ok(t) => opt(t.parse::<AudioCodec>().ok(), |c| acodec_s(c).to_string()),
            Err(_) => "not-utf8".into(),
        },
        "video_codec_name" => hex_of_bytes(vcodec(args[0]).to_string().as_bytes()),
        "audio_codec_name" => hex_of_bytes(acodec(args[0]).to_string().as_bytes()),
        "validate_video_config" => vres(&validate_video_config(vcodec(args[0]), num(args[1]) as u32, num(args[2]) as u32, f64_of(args[3]))),
        "validate_audio_config" => vres(&validate_audio_config(acodec(args[0]), num(args[1]) as u32, num(args[2]) as u8)),
        "validate_video_frame" => vres(&validate_video_frame(vcodec(args[0]), &bytes_of_hex(args[1]), args[2] == "1")),
        "validate_audio_frame" => vres(&validate_audio_frame(acodec(args[0]), &bytes_of_hex(args[1]))),
        "validate_muxing_config" => {
            fn o<T>(x: &str, g: impl Fn(&str) -> T) -> Option<T> {
                if x == "~" { None } else { Some(g(x)) }
            }
            let v = VideoValidationConfig {
                codec: o(args[0], vcodec),
                width: o(args[1], |x| num(x) as u32),
                height: o(args[2], |x| num(x) as u32),
                framerate: o(args[3], f64_of),
                sample_frame: o(args[4], |x| (bytes_of_hex(x), args[5] == "1")),
            };
            let a = AudioValidationConfig {
                codec: o(args[6], acodec),
                sample_rate: o(args[7], |x| num(x) as u32),
                channels: o(args[8], |x| num(x) as u8),
                sample_frame: o(args[9], bytes_of_hex),
            };
            vres(&validate_muxing_config(v, a))
        }
        _ => "unknown-fn".into(),
    }
}

// ---------- mux cases ----------
enum BOp {
    Video(VideoCodec, u32, u32),
    SetVideo(VideoCodec, u32, u32),
    Audio(AudioCodec, u32, u16),
    SetAudio(AudioCodec, u32, u16),
    Meta(Option<Vec<u8>>, Option<u64>, Option<Vec<u8>>),
    CTime(u64),
    Lang(Vec<u8>),
    Fast(bool),
    Sps(Vec<u8>),
    Pps(Vec<u8>),
    Vps(Vec<u8>),
    Av1Seq(Vec<u8>),
    Vp9(Vp9Config),
}

fn vp9_of(w: &[&str]) -> Vp9Config {
    Vp9Config {
        width: num(w[0]) as u32,
        height: num(w[1]) as u32,
        profile: num(w[2]) as u8,
        bit_depth: num(w[3]) as u8,
        color_space: num(w[4]) as u8,
        transfer_function: num(w[5]) as u8,
        matrix_coefficients: num(w[6]) as u8,
        level: num(w[7]) as u8,
        full_range_flag: num(w[8]) as u8,
    }
}

fn parse_bop(w: &[&str]) -> BOp {
    let s = |b: Vec<u8>| b;
    match w[0] {
        "video" => BOp::Video(vcodec(w[1]), num(w[2]) as u32, num(w[3]) as u32),
        "setvideo" => BOp::SetVideo(vcodec(w[1]), num(w[2]) as u32, num(w[3]) as u32),
        "audio" => BOp::Audio(acodec(w[1]), num(w[2]) as u32, num(w[3]) as u16),
        "setaudio" => BOp::SetAudio(acodec(w[1]), num(w[2]) as u32, num(w[3]) as u16),
        "meta" => BOp::Meta(opt_hex(w[1]), if w[2] == "~" { None } else { Some(num(w[2])) }, opt_hex(w[3])),
        "ctime" => BOp::CTime(num(w[1])),
        "lang" => BOp::Lang(s(bytes_of_hex(w[1]))),
        "fast" => BOp::Fast(w[1] == "1"),
        "sps" => BOp::Sps(bytes_of_hex(w[1])),
        "pps" => BOp::Pps(bytes_of_hex(w[1])),
        "vps" => BOp::Vps(bytes_of_hex(w[1])),
        "av1seq" => BOp::Av1Seq(bytes_of_hex(w[1])),
        "vp9" => BOp::Vp9(vp9_of(&w[1..])),
        _ => panic!("bad builder op"),
    }
}

fn utf8(b: Vec<u8>) -> String {
    String::from_utf8(b).expect("generator must emit valid UTF-8")
}

fn apply_bops<W>(mut b: MuxerBuilder<W>, bops: &[BOp]) -> MuxerBuilder<W> {
    for o in bops {
        b = match o {
            BOp::Video(c, w, h) => b.video(*c, *w, *h, 30.0),
            BOp::SetVideo(c, w, h) => b.set_video_track(*c, *w, *h, 30.0),
            BOp::Audio(c, r, ch) => b.audio(*c, *r, *ch),
            BOp::SetAudio(c, r, ch) => b.set_audio_track(*c, *r, *ch),
            BOp::Meta(t, ct, l) => {
                let mut m = Metadata::new();
                if let Some(t) = t {
                    m = m.with_title(utf8(t.clone()));
                }
                if let Some(ct) = ct {
                    m = m.with_creation_time(*ct);
                }
                if let Some(l) = l {
                    m = m.with_language(utf8(l.clone()));
                }
                b.with_metadata(m)
            }
            BOp::CTime(t) => b.set_create_time(*t),
            BOp::Lang(l) => b.set_language(utf8(l.clone())),
            BOp::Fast(f) => b.with_fast_start(*f),
            BOp::Sps(x) => b.with_sps(x.clone()),
            BOp::Pps(x) => b.with_pps(x.clone()),
            BOp::Vps(x) => b.with_vps(x.clone()),
            BOp::Av1Seq(x) => b.with_av1_sequence_header(x.clone()),
            BOp::Vp9(c) => b.with_vp9_config(c.clone()),
        };
    }
    b
}

fn res_line(r: Result<Option<muxide::api::MuxerStats>, MuxerError>, out: &mut String) {
    match r {
        Ok(None) => out.push_str("r ok\n"),
        Ok(Some(s)) => out.push_str(&format!(
            "r stats {:x} {:x} {} {:x}\n",
            s.video_frames,
            s.audio_frames,
            f64_hex(s.duration_secs),
            s.bytes_written
        )),
        Err(e) => {
            let _ = format!("{}", e); // exercise Display
            out.push_str(&format!("r err {}\n", merr_str(&e)));
        }
    }
}

fn run_mux(bops: &[BOp], script: Vec<Ev>, ops: &[Vec<String>], out: &mut String) {
    let sink = ScriptSink {
        data: Arc::new(Mutex::new(Vec::new())),
        script: Arc::new(Mutex::new(script.into_iter().collect())),
        writes: Arc::new(Mutex::new(0)),
    };
    let data = sink.data.clone();
    let writes = sink.writes.clone();
    let built = catch_unwind(AssertUnwindSafe(|| apply_bops(MuxerBuilder::new(sink), bops).build()));
    let mut mux: Option<Muxer<ScriptSink>> = match built {
        Err(_) => {
            out.push_str("build panic\n");
            return;
        }
        Ok(Err(e)) => {
            out.push_str(&format!("build err {}\n", merr_str(&e)));
            return;
        }
        Ok(Ok(m)) => {
            out.push_str("build ok\n");
            Some(m)
        }
    };
    for w in ops {
        let w: Vec<&str> = w.iter().map(|s| s.as_str()).collect();
        if mux.is_none() {
            break;
        }
        let r = catch_unwind(AssertUnwindSafe(|| -> Result<Option<muxide::api::MuxerStats>, MuxerError> {
            match w[0] {
                "wv" => mux.as_mut().unwrap().write_video(f64_of(w[1]), &bytes_of_hex(w[2]), w[3] == "1").map(|_| None),
                "wvd" => mux
                    .as_mut()
                    .unwrap()
                    .write_video_with_dts(f64_of(w[1]), f64_of(w[2]), &bytes_of_hex(w[3]), w[4] == "1")
                    .map(|_| None),
                "wa" => mux.as_mut().unwrap().write_audio(f64_of(w[1]), &bytes_of_hex(w[2])).map(|_| None),
                "ev" => mux.as_mut().unwrap().encode_video(&bytes_of_hex(w[1]), num(w[2]) as u32).map(|_| None),
                "ea" => mux.as_mut().unwrap().encode_audio(&bytes_of_hex(w[1]), num(w[2]) as u32).map(|_| None),
                "fin" => match w[1] {
                    "0" => mux.as_mut().unwrap().finish_in_place_with_stats().map(Some),
                    "1" => mux.as_mut().unwrap().finish_in_place().map(|_| None),
                    "2" => mux.take().unwrap().finish().map(|_| None),
                    "3" => mux.take().unwrap().finish_with_stats().map(Some),
                    "4" => mux.take().unwrap().flush().map(|_| None),
                    _ => panic!("bad fin kind"),
                },
                _ => panic!("bad op"),
            }
        }));
        match r {
            Ok(r) => res_line(r, out),
            Err(_) => {
                out.push_str("r panic\n");
                break;
            }
        }
        out.push_str(&format!("s {:x}\n", data.lock().unwrap().len()));
    }
    out.push_str(&format!("sink {}\n", hex_of_bytes(&data.lock().unwrap())));
    out.push_str(&format!("# writes {:x}\n", *writes.lock().unwrap()));
}

fn run_frag(bops: &[BOp], fc: Option<FragmentConfig>, ops: &[Vec<String>], out: &mut String) {
    let built = catch_unwind(AssertUnwindSafe(|| match fc {
        Some(c) => Ok(FragmentedMuxer::new(c)),
        None => apply_bops(MuxerBuilder::new(Vec::<u8>::new()), bops).new_with_fragment(),
    }));
    let mut m = match built {
        Err(_) => {
            out.push_str("build panic\n");
            return;
        }
        Ok(Err(e)) => {
            out.push_str(&format!("build err {}\n", merr_str(&e)));
            return;
        }
        Ok(Ok(m)) => {
            out.push_str("build ok\n");
            m
        }
    };
    for w in ops {
        let w: Vec<&str> = w.iter().map(|s| s.as_str()).collect();
        let r = catch_unwind(AssertUnwindSafe(|| -> String {
            match w[0] {
                "fw" => match m.write_video(num(w[1]), num(w[2]), &bytes_of_hex(w[3]), w[4] == "1") {
                    Ok(()) => "r ok".into(),
                    Err(FragmentedError::NonMonotonicDts { prev_dts, curr_dts }) => {
                        format!("r err NonMonotonicDts {:x} {:x}", prev_dts, curr_dts)
                    }
                },
                "ff" => match m.flush_segment() {
                    None => "r seg none".into(),
                    Some(b) => format!("r seg {}", hex_of_bytes(&b)),
                },
                "fr" => format!("r bool {}", s01(m.ready_to_flush())),
                "fd" => format!("r num {:x}", m.current_fragment_duration_ms()),
                "fi" => format!("r bytes {}", hex_of_bytes(&m.init_segment())),
                _ => panic!("bad fop"),
            }
        }));
        match r {
            Ok(s) => {
                out.push_str(&s);
                out.push('\n');
            }
            Err(_) => {
                out.push_str("r panic\n");
                break;
            }
        }
    }
}

struct Trickle {
    data: Vec<u8>,
    max: usize,
    intr: bool,
    tick: u64,
}
impl Write for Trickle {
    fn write(&mut self, buf: &[u8]) -> io::Result<usize> {
        self.tick += 1;
        if self.intr && self.tick % 2 == 1 {
            return Err(io::Error::new(io::ErrorKind::Interrupted, "interrupted"));
        }
        let k = std::cmp::min(self.max, buf.len());
        self.data.extend_from_slice(&buf[..k]);
        Ok(k)
    }
    fn flush(&mut self) -> io::Result<()> {
        Ok(())
    }
}

/// Alternative sink types for C17: the same history must give the same bytes on any `W: Write`.
fn run_mux_alt_sinks(bops: &[BOp], ops: &[Vec<String>], out: &mut String) {
    use std::io::Cursor;
    // Vec<u8>
    let mut v: Vec<u8> = Vec::new();
    let r1 = run_history(apply_bops(MuxerBuilder::new(&mut v), bops).build(), ops);
    // Cursor<Vec<u8>>
    let mut c = Cursor::new(Vec::<u8>::new());
    let r2 = run_history(apply_bops(MuxerBuilder::new(&mut c), bops).build(), ops);
    // real file
    let path = std::env::temp_dir().join(format!("muxide_verif_{}_{:?}.mp4", std::process::id(), std::thread::current().id()));
    let r3;
    let fbytes;
    {
        let f = std::fs::File::create(&path).expect("temp file");
        r3 = run_history(apply_bops(MuxerBuilder::new(f), bops).build(), ops);
        fbytes = std::fs::read(&path).unwrap_or_default();
        let _ = std::fs::remove_file(&path);
    }
    // BufWriter over a Vec
    let mut inner: Vec<u8> = Vec::new();
    let r4;
    {
        let bw = std::io::BufWriter::with_capacity(7, &mut inner);
        r4 = run_history(apply_bops(MuxerBuilder::new(bw), bops).build(), ops);
    }
    // sinks that accept at most n bytes per write() call (legal short writes), one of them also
    // returning Interrupted before every other write
    for (n, intr) in [(1usize, false), (7, false), (4096, false), (3, true)] {
        let mut t = Trickle { data: Vec::new(), max: n, intr, tick: 0 };
        let r = run_history(apply_bops(MuxerBuilder::new(&mut t), bops).build(), ops);
        out.push_str(&format!("alt trickle{}{} {} {}\n", n, if intr { "i" } else { "" }, r, hex_of_bytes(&t.data)));
    }
    out.push_str(&format!("alt vec {} {}\n", r1, hex_of_bytes(&v)));
    out.push_str(&format!("alt cursor {} {}\n", r2, hex_of_bytes(c.get_ref())));
    out.push_str(&format!("alt file {} {}\n", r3, hex_of_bytes(&fbytes)));
    out.push_str(&format!("alt bufwriter {} {}\n", r4, hex_of_bytes(&inner)));
}

/// Runs a history on any writer; returns the result lines joined with '|'.
fn run_history<W: Write>(built: Result<Muxer<W>, MuxerError>, ops: &[Vec<String>]) -> String {
    let mut lines: Vec<String> = Vec::new();
    let mut mux = match built {
        Err(e) => return format!("build-err:{}", merr_str(&e)),
        Ok(m) => Some(m),
    };
    for w in ops {
        let w: Vec<&str> = w.iter().map(|s| s.as_str()).collect();
        if mux.is_none() {
            break;
        }
        let r = catch_unwind(AssertUnwindSafe(|| -> Result<Option<muxide::api::MuxerStats>, MuxerError> {
            match w[0] {
                "wv" => mux.as_mut().unwrap().write_video(f64_of(w[1]), &bytes_of_hex(w[2]), w[3] == "1").map(|_| None),
                "wvd" => mux.as_mut().unwrap().write_video_with_dts(f64_of(w[1]), f64_of(w[2]), &bytes_of_hex(w[3]), w[4] == "1").map(|_| None),
                "wa" => mux.as_mut().unwrap().write_audio(f64_of(w[1]), &bytes_of_hex(w[2])).map(|_| None),
                "ev" => mux.as_mut().unwrap().encode_video(&bytes_of_hex(w[1]), num(w[2]) as u32).map(|_| None),
                "ea" => mux.as_mut().unwrap().encode_audio(&bytes_of_hex(w[1]), num(w[2]) as u32).map(|_| None),
                "fin" => match w[1] {
                    "0" => mux.as_mut().unwrap().finish_in_place_with_stats().map(Some),
                    "1" => mux.as_mut().unwrap().finish_in_place().map(|_| None),
                    "2" => mux.take().unwrap().finish().map(|_| None),
                    "3" => mux.take().unwrap().finish_with_stats().map(Some),
                    "4" => mux.take().unwrap().flush().map(|_| None),
                    _ => panic!("bad fin kind"),
                },
                _ => panic!("bad op"),
            }
        }));
        match r {
            Ok(r) => {
                let mut s = String::new();
                res_line(r, &mut s);
                lines.push(s.trim().to_string());
            }
            Err(_) => {
                lines.push("r panic".to_string());
                break;
            }
        }
    }
    lines.join("|")
}

// `Muxer<W>` may be moved between threads whenever its sink may (checked by rustc for every W).
#[allow(dead_code)]
fn need_send<W: Write + Send>() {
    fn is_send<T: Send>() {}
    is_send::<Muxer<W>>();
    is_send::<MuxerBuilder<W>>();
}
#[allow(dead_code)]
fn need_sync<W: Write + Sync>() {
    fn is_sync<T: Sync>() {}
    is_sync::<Muxer<W>>();
}
#[allow(dead_code)]
fn frag_send_sync() {
    fn is_send_sync<T: Send + Sync>() {}
    is_send_sync::<FragmentedMuxer>();
}

fn main() {
    std::panic::set_hook(Box::new(|_| {}));
    let mode = std::env::var("HARNESS_MODE").unwrap_or_default();
    if let Some(n) = mode.strip_prefix("threads:") {
        // every thread interprets the whole input concurrently; outputs must all be identical
        let n: usize = n.parse().unwrap();
        let mut input = String::new();
        io::Read::read_to_string(&mut io::stdin(), &mut input).unwrap();
        let input = Arc::new(input);
        let handles: Vec<_> = (0..n)
            .map(|_| {
                let inp = input.clone();
                std::thread::spawn(move || {
                    let mut out = Vec::<u8>::new();
                    interpret(inp.as_bytes(), &mut out, false);
                    out
                })
            })
            .collect();
        let outs: Vec<Vec<u8>> = handles.into_iter().map(|h| h.join().unwrap()).collect();
        let same = outs.iter().all(|o| *o == outs[0]);
        let so = io::stdout();
        let mut so = so.lock();
        so.write_all(&outs[0]).unwrap();
        writeln!(so, "# threads {} identical {}", n, if same { 1 } else { 0 }).unwrap();
        return;
    }
    let stdin = io::stdin();
    let stdout = io::stdout();
    let mut so = stdout.lock();
    interpret(stdin.lock(), &mut so, mode == "sinks");
}

fn interpret<R: BufRead, O: Write>(input: R, so: &mut O, alt_sinks: bool) {
    let mut kind = String::new();
    let mut id = String::new();
    let mut bops: Vec<BOp> = Vec::new();
    let mut script: Vec<Ev> = Vec::new();
    let mut ops: Vec<Vec<String>> = Vec::new();
    let mut fc: Option<FragmentConfig> = None;
    for line in input.lines() {
        let line = line.unwrap();
        let w: Vec<&str> = line.split(' ').filter(|s| !s.is_empty()).collect();
        if w.is_empty() {
            continue;
        }
        match w[0] {
            "case" if w.len() >= 4 && w[2] == "fn" => {
                let name = w[3].to_string();
                let args: Vec<&str> = w[4..].to_vec();
                let r = catch_unwind(AssertUnwindSafe(|| run_fn(&name, &args)));
                let s = match r {
                    Ok(s) => s,
                    Err(_) => "panic".to_string(),
                };
                writeln!(so, "case {}\nr {}\nend", w[1], s).unwrap();
            }
            "case" => {
                id = w[1].to_string();
                kind = w[2].to_string();
                bops.clear();
                script.clear();
                ops.clear();
                fc = None;
            }
            "b" => bops.push(parse_bop(&w[1..])),
            "sink" => script = w[1..].iter().map(|s| parse_ev(s)).collect(),
            "fc" => {
                let vp9 = if w[9] == "~" {
                    None
                } else {
                    let parts: Vec<&str> = w[9].split(',').collect();
                    Some(vp9_of(&parts))
                };
                fc = Some(FragmentConfig {
                    width: num(w[1]) as u32,
                    height: num(w[2]) as u32,
                    timescale: num(w[3]) as u32,
                    fragment_duration_ms: num(w[4]) as u32,
                    sps: bytes_of_hex(w[5]),
                    pps: bytes_of_hex(w[6]),
                    vps: opt_hex(w[7]),
                    av1_sequence_header: opt_hex(w[8]),
                    vp9_config: vp9,
                });
            }
            "o" => ops.push(w[1..].iter().map(|s| s.to_string()).collect()),
            "end" => {
                let mut out = String::new();
                out.push_str(&format!("case {}\n", id));
                match kind.as_str() {
                    "mux" => {
                        run_mux(&bops, script.clone(), &ops, &mut out);
                        if alt_sinks && script.is_empty() {
                            run_mux_alt_sinks(&bops, &ops, &mut out);
                        }
                    }
                    "frag" => run_frag(&bops, fc.take(), &ops, &mut out),
                    k => out.push_str(&format!("unknown-kind {}\n", k)),
                }
                out.push_str("end\n");
                so.write_all(out.as_bytes()).unwrap();
                so.flush().unwrap();
            }
            _ => panic!("bad line: {}", line),
        }
    }
}
